(* UTF-8 (RFC 3629 / Unicode Table 3-7) on lists of code points and bytes: the strict
   codec Python's str(..., 'utf-8') / bytes(..., 'utf-8') implement. *)
From PV Require Import Base.Prelude.
From Coq Require Import ZifyBool.
Ltac Zify.zify_post_hook ::= Z.to_euclidean_division_equations.

Definition surrogate (cp : Z) : bool := (0xD800 <=? cp) && (cp <=? 0xDFFF).
Definition valid_scalarb (cp : Z) : bool := (0 <=? cp) && (cp <=? 0x10FFFF) && negb (surrogate cp).
Definition valid_scalar (cp : Z) : Prop := valid_scalarb cp = true.

Definition utf8_encode1 (cp : Z) : list Z :=
  if cp <? 0x80 then [cp]
  else if cp <? 0x800 then [0xC0 + cp / 64; 0x80 + cp mod 64]
  else if cp <? 0x10000 then [0xE0 + cp / 4096; 0x80 + (cp / 64) mod 64; 0x80 + cp mod 64]
  else [0xF0 + cp / 262144; 0x80 + (cp / 4096) mod 64; 0x80 + (cp / 64) mod 64; 0x80 + cp mod 64].

Definition utf8_encode (l : list Z) : list Z := flat_map utf8_encode1 l.

Definition cont (b : Z) : bool := (0x80 <=? b) && (b <? 0xC0).

Definition ocons (x : Z) (o : option (list Z)) : option (list Z) :=
  match o with Some l => Some (x :: l) | None => None end.

Fixpoint utf8_decode (bs : list Z) : option (list Z) :=
  match bs with
  | [] => Some []
  | b0 :: r =>
    if (0 <=? b0) && (b0 <? 0x80) then ocons b0 (utf8_decode r)
    else if (b0 <? 0xC2) then None
    else if b0 <? 0xE0 then
      match r with
      | b1 :: r1 => if cont b1 then ocons ((b0 - 0xC0) * 64 + (b1 - 0x80)) (utf8_decode r1) else None
      | _ => None
      end
    else if b0 <? 0xF0 then
      match r with
      | b1 :: b2 :: r2 =>
        let cp := (b0 - 0xE0) * 4096 + (b1 - 0x80) * 64 + (b2 - 0x80) in
        if cont b1 && cont b2 && (0x800 <=? cp) && negb (surrogate cp)
        then ocons cp (utf8_decode r2) else None
      | _ => None
      end
    else if b0 <? 0xF5 then
      match r with
      | b1 :: b2 :: b3 :: r3 =>
        let cp := (b0 - 0xF0) * 262144 + (b1 - 0x80) * 4096 + (b2 - 0x80) * 64 + (b3 - 0x80) in
        if cont b1 && cont b2 && cont b3 && (0x10000 <=? cp) && (cp <=? 0x10FFFF)
        then ocons cp (utf8_decode r3) else None
      | _ => None
      end
    else None
  end.

Lemma utf8_decode_encode1 cp rest :
  valid_scalar cp -> utf8_decode (utf8_encode1 cp ++ rest) = ocons cp (utf8_decode rest).
Proof.
  unfold valid_scalar, valid_scalarb, surrogate, utf8_encode1. intros H.
  destruct (cp <? 0x80) eqn:E1.
  { cbn [app utf8_decode]. replace ((0 <=? cp) && (cp <? 128)) with true by lia. reflexivity. }
  destruct (cp <? 0x800) eqn:E2.
  { cbn [app utf8_decode].
    replace ((0 <=? 192 + cp / 64) && (192 + cp / 64 <? 128)) with false by lia.
    replace (192 + cp / 64 <? 194) with false by lia.
    replace (192 + cp / 64 <? 224) with true by lia.
    unfold cont. replace ((128 <=? 128 + cp mod 64) && (128 + cp mod 64 <? 192)) with true by lia.
    replace ((192 + cp / 64 - 192) * 64 + (128 + cp mod 64 - 128)) with cp by lia. reflexivity. }
  destruct (cp <? 0x10000) eqn:E3.
  { cbn [app utf8_decode].
    replace ((0 <=? 224 + cp / 4096) && (224 + cp / 4096 <? 128)) with false by lia.
    replace (224 + cp / 4096 <? 194) with false by lia.
    replace (224 + cp / 4096 <? 224) with false by lia.
    replace (224 + cp / 4096 <? 240) with true by lia.
    replace ((224 + cp / 4096 - 224) * 4096 + (128 + cp / 64 mod 64 - 128) * 64 + (128 + cp mod 64 - 128)) with cp by lia.
    unfold cont, surrogate.
    replace ((128 <=? 128 + cp / 64 mod 64) && (128 + cp / 64 mod 64 <? 192) &&
             ((128 <=? 128 + cp mod 64) && (128 + cp mod 64 <? 192)) && (2048 <=? cp) &&
             negb ((55296 <=? cp) && (cp <=? 57343))) with true by lia.
    reflexivity. }
  cbn [app utf8_decode].
  replace ((0 <=? 240 + cp / 262144) && (240 + cp / 262144 <? 128)) with false by lia.
  replace (240 + cp / 262144 <? 194) with false by lia.
  replace (240 + cp / 262144 <? 224) with false by lia.
  replace (240 + cp / 262144 <? 240) with false by lia.
  replace (240 + cp / 262144 <? 245) with true by lia.
  replace ((240 + cp / 262144 - 240) * 262144 + (128 + cp / 4096 mod 64 - 128) * 4096 +
           (128 + cp / 64 mod 64 - 128) * 64 + (128 + cp mod 64 - 128)) with cp by lia.
  unfold cont.
  replace ((128 <=? 128 + cp / 4096 mod 64) && (128 + cp / 4096 mod 64 <? 192) &&
           ((128 <=? 128 + cp / 64 mod 64) && (128 + cp / 64 mod 64 <? 192)) &&
           ((128 <=? 128 + cp mod 64) && (128 + cp mod 64 <? 192)) && (65536 <=? cp) && (cp <=? 1114111))
    with true by lia.
  reflexivity.
Qed.

Lemma utf8_decode_encode l :
  Forall valid_scalar l -> utf8_decode (utf8_encode l) = Some l.
Proof.
  induction 1 as [|cp l Hcp Hl IH]; [reflexivity|].
  cbn [utf8_encode flat_map]. rewrite utf8_decode_encode1 by exact Hcp.
  fold (utf8_encode l). rewrite IH. reflexivity.
Qed.

Lemma utf8_encode1_bytes cp : valid_scalar cp -> Forall byte (utf8_encode1 cp).
Proof.
  unfold valid_scalar, valid_scalarb, surrogate, utf8_encode1, byte. intros H.
  destruct (cp <? 0x80) eqn:E1; [repeat constructor; lia|].
  destruct (cp <? 0x800) eqn:E2; [repeat constructor; lia|].
  destruct (cp <? 0x10000) eqn:E3; repeat constructor; lia.
Qed.

Lemma utf8_encode_bytes l : Forall valid_scalar l -> Forall byte (utf8_encode l).
Proof.
  induction 1 as [|cp l Hcp Hl IH]; [constructor|].
  cbn [utf8_encode flat_map]. apply Forall_app. split; [apply utf8_encode1_bytes; exact Hcp | exact IH].
Qed.
