(* Decimal text of non-negative integers: '%s' % n / str(n), and int(b) for ASCII digit strings
   (what HEADER_VERSION_RE's (\d+) group can contain). Built on the stdlib's Decimal. *)
From PV Require Import Base.Prelude.
From Coq Require Import Decimal DecimalZ DecimalPos.

Fixpoint digits_of_uint (u : Decimal.uint) : list Z :=
  match u with
  | Nil => []
  | D0 r => 48 :: digits_of_uint r | D1 r => 49 :: digits_of_uint r | D2 r => 50 :: digits_of_uint r
  | D3 r => 51 :: digits_of_uint r | D4 r => 52 :: digits_of_uint r | D5 r => 53 :: digits_of_uint r
  | D6 r => 54 :: digits_of_uint r | D7 r => 55 :: digits_of_uint r | D8 r => 56 :: digits_of_uint r
  | D9 r => 57 :: digits_of_uint r
  end.

Fixpoint uint_of_digits (l : list Z) : option Decimal.uint :=
  match l with
  | [] => Some Nil
  | c :: r =>
    match uint_of_digits r with
    | None => None
    | Some u =>
      if c =? 48 then Some (D0 u) else if c =? 49 then Some (D1 u) else if c =? 50 then Some (D2 u)
      else if c =? 51 then Some (D3 u) else if c =? 52 then Some (D4 u) else if c =? 53 then Some (D5 u)
      else if c =? 54 then Some (D6 u) else if c =? 55 then Some (D7 u) else if c =? 56 then Some (D8 u)
      else if c =? 57 then Some (D9 u) else None
    end
  end.

(* str(n), n >= 0 (a negative n prints a '-' sign first, as Python does) *)
Definition dec_of_Z (n : Z) : list Z :=
  match Z.to_int n with
  | Decimal.Pos u => digits_of_uint u
  | Decimal.Neg u => 45 :: digits_of_uint u
  end.

(* int(s) for s made of one or more ASCII digits; anything else is not produced by (\d+) *)
Definition Z_of_dec (l : list Z) : option Z :=
  match l with
  | [] => None
  | _ => match uint_of_digits l with Some u => Some (Z.of_uint u) | None => None end
  end.

Definition is_digit (c : Z) : bool := (48 <=? c) && (c <=? 57).

Lemma uint_of_digits_of_uint u : uint_of_digits (digits_of_uint u) = Some u.
Proof. induction u; cbn [digits_of_uint uint_of_digits]; try rewrite IHu; reflexivity. Qed.

Lemma digits_of_uint_digits u : forallb is_digit (digits_of_uint u) = true.
Proof. induction u; cbn [digits_of_uint forallb]; try rewrite IHu; reflexivity. Qed.

Lemma digits_of_uint_nonempty u : u <> Nil -> digits_of_uint u <> [].
Proof. destruct u; cbn; congruence. Qed.

Lemma to_int_nonneg n : 0 <= n -> exists u, Z.to_int n = Decimal.Pos u /\ u <> Nil.
Proof.
  intros H. destruct n as [|p|p]; [| |lia].
  - exists (D0 Nil). split; [reflexivity | discriminate].
  - exists (Pos.to_uint p). split; [reflexivity|].
    intros E. pose proof (DecimalPos.Unsigned.of_to p) as X. rewrite E in X. discriminate.
Qed.

Lemma Z_of_dec_of_Z n : 0 <= n -> Z_of_dec (dec_of_Z n) = Some n.
Proof.
  intros H. destruct (to_int_nonneg n H) as (u & E & Hu). unfold dec_of_Z. rewrite E.
  unfold Z_of_dec. destruct (digits_of_uint u) eqn:D; [exfalso; exact (digits_of_uint_nonempty u Hu D)|].
  rewrite <- D, uint_of_digits_of_uint. f_equal.
  pose proof (DecimalZ.of_to n) as X. rewrite E in X. exact X.
Qed.

Lemma dec_of_Z_digits n : 0 <= n -> forallb is_digit (dec_of_Z n) = true /\ dec_of_Z n <> [].
Proof.
  intros H. destruct (to_int_nonneg n H) as (u & E & Hu). unfold dec_of_Z. rewrite E.
  split; [apply digits_of_uint_digits | apply digits_of_uint_nonempty; exact Hu].
Qed.
