(* List lemmas missing from the 8.16 standard library. *)
From PV Require Import Base.Prelude.

Section ListX.
Context {A : Type}.

Lemma nth_error_firstn (l : list A) n k :
  (k < n)%nat -> nth_error (firstn n l) k = nth_error l k.
Proof.
  revert n k; induction l as [|x l IH]; intros n k H.
  - rewrite firstn_nil. reflexivity.
  - destruct n as [|n]; [lia|]. destruct k as [|k]; cbn; [reflexivity|].
    apply IH. lia.
Qed.

Lemma nth_error_firstn_ge (l : list A) n k :
  (n <= k)%nat -> nth_error (firstn n l) k = None.
Proof.
  intros H. apply nth_error_None. rewrite firstn_length. lia.
Qed.

Lemma nth_error_skipn (l : list A) n k :
  nth_error (skipn n l) k = nth_error l (n + k).
Proof.
  revert l; induction n as [|n IH]; intros l; [reflexivity|].
  destruct l as [|x l]; cbn.
  - destruct k; reflexivity.
  - apply IH.
Qed.

Lemma nth_error_ext (l1 l2 : list A) :
  (forall k, nth_error l1 k = nth_error l2 k) -> l1 = l2.
Proof.
  revert l2; induction l1 as [|x l1 IH]; intros [|y l2] H.
  - reflexivity.
  - specialize (H O). discriminate.
  - specialize (H O). discriminate.
  - f_equal.
    + specialize (H O). cbn in H. congruence.
    + apply IH. intros k. apply (H (S k)).
Qed.

Lemma nth_error_app (l1 l2 : list A) k :
  nth_error (l1 ++ l2) k =
  if Nat.ltb k (length l1) then nth_error l1 k else nth_error l2 (k - length l1).
Proof.
  destruct (Nat.ltb_spec k (length l1)).
  - apply nth_error_app1; assumption.
  - apply nth_error_app2; assumption.
Qed.

Lemma Forall_firstn (P : A -> Prop) n l : Forall P l -> Forall P (firstn n l).
Proof.
  intros H. rewrite Forall_forall in *. intros x Hx.
  apply H. rewrite <- (firstn_skipn n l). apply in_or_app. left. exact Hx.
Qed.

Lemma Forall_skipn (P : A -> Prop) n l : Forall P l -> Forall P (skipn n l).
Proof.
  intros H. rewrite Forall_forall in *. intros x Hx.
  apply H. rewrite <- (firstn_skipn n l). apply in_or_app. right. exact Hx.
Qed.

End ListX.
