(* Python sequence indexing, slicing and slice assignment on lists
   (bytearray / list / bytes semantics, step 1). *)
From PV Require Import Base.Prelude Base.ListX.

Section Slice.
Context {A : Type}.

(* index normalisation of slice bounds: negative counts from the end, then clamp *)
Definition norm_idx (len i : Z) : Z :=
  if i <? 0 then Z.max 0 (len + i) else Z.min i len.

Definition py_slice (l : list A) (lo hi : Z) : list A :=
  let n := zlen l in
  let a := norm_idx n lo in
  let b := norm_idx n hi in
  firstn (Z.to_nat (b - a)) (skipn (Z.to_nat a) l).

(* l[lo:hi] = d   (resizes when len d <> hi - lo; hi < lo inserts at lo) *)
Definition py_setslice (l : list A) (lo hi : Z) (d : list A) : list A :=
  let n := zlen l in
  let a := norm_idx n lo in
  let b := Z.max a (norm_idx n hi) in
  firstn (Z.to_nat a) l ++ d ++ skipn (Z.to_nat b) l.

(* l[i] with Python's negative indexing; IndexError outside *)
Definition py_get (l : list A) (i : Z) : result A :=
  let n := zlen l in
  let j := if i <? 0 then n + i else i in
  if (j <? 0) || (n <=? j) then Err IndexError
  else match nth_error l (Z.to_nat j) with Some x => Ok x | None => Err IndexError end.

Fixpoint set_nth (l : list A) (n : nat) (x : A) : list A :=
  match l, n with
  | [], _ => []
  | _ :: r, O => x :: r
  | y :: r, S k => y :: set_nth r k x
  end.

Definition py_set (l : list A) (i : Z) (x : A) : result (list A) :=
  let n := zlen l in
  let j := if i <? 0 then n + i else i in
  if (j <? 0) || (n <=? j) then Err IndexError
  else Ok (set_nth l (Z.to_nat j) x).

Lemma set_nth_length l n x : length (set_nth l n x) = length l.
Proof. revert n; induction l as [|y r IH]; intros [|k]; cbn; auto. Qed.

Lemma set_nth_nth_error l n x k :
  nth_error (set_nth l n x) k =
  if Nat.eqb k n then (if Nat.ltb n (length l) then Some x else None) else nth_error l k.
Proof.
  revert n k; induction l as [|y r IH]; intros n k.
  - cbn. destruct (Nat.eqb k n); destruct k; reflexivity.
  - destruct n as [|n]; destruct k as [|k]; cbn [set_nth nth_error Nat.eqb]; try reflexivity.
    rewrite IH. cbn [length].
    change (Nat.ltb (S n) (S (length r))) with (Nat.ltb n (length r)). reflexivity.
Qed.

End Slice.

(* ---- pointwise characterisation on in-range bounds (what the proofs use) ---- *)
Section Pointwise.
Context {A : Type}.

Lemma norm_idx_inrange len i : 0 <= i <= len -> norm_idx len i = i.
Proof. unfold norm_idx. intros H. destruct (i <? 0) eqn:E; lia. Qed.

Lemma py_slice_inrange (l : list A) a b :
  0 <= a <= b -> b <= zlen l ->
  py_slice l a b = firstn (Z.to_nat (b - a)) (skipn (Z.to_nat a) l).
Proof.
  intros H1 H2. unfold py_slice. rewrite !norm_idx_inrange by lia. reflexivity.
Qed.

Lemma py_slice_length (l : list A) a b :
  0 <= a <= b -> b <= zlen l -> zlen (py_slice l a b) = b - a.
Proof.
  intros H1 H2. rewrite py_slice_inrange by assumption.
  unfold zlen in *. rewrite firstn_length, skipn_length. lia.
Qed.

Lemma py_slice_nth_error (l : list A) a b k :
  0 <= a <= b -> b <= zlen l -> (k < Z.to_nat (b - a))%nat ->
  nth_error (py_slice l a b) k = nth_error l (Z.to_nat a + k).
Proof.
  intros H1 H2 Hk. rewrite py_slice_inrange by assumption.
  rewrite nth_error_firstn by exact Hk.
  rewrite nth_error_skipn. reflexivity.
Qed.

Lemma py_setslice_inrange (l d : list A) a b :
  0 <= a <= b -> b <= zlen l ->
  py_setslice l a b d = firstn (Z.to_nat a) l ++ d ++ skipn (Z.to_nat b) l.
Proof.
  intros H1 H2. unfold py_setslice. rewrite !norm_idx_inrange by lia.
  rewrite Z.max_r by lia. reflexivity.
Qed.

Lemma py_setslice_length (l d : list A) a b :
  0 <= a <= b -> b <= zlen l -> zlen d = b - a ->
  zlen (py_setslice l a b d) = zlen l.
Proof.
  intros H1 H2 Hd. rewrite py_setslice_inrange by assumption.
  unfold zlen in *. rewrite !app_length, firstn_length, skipn_length. lia.
Qed.

Lemma py_setslice_nth_error (l d : list A) a b k :
  0 <= a <= b -> b <= zlen l -> zlen d = b - a ->
  nth_error (py_setslice l a b d) k =
  if (Z.of_nat k <? a) then nth_error l k
  else if (Z.of_nat k <? b) then nth_error d (k - Z.to_nat a)
  else nth_error l k.
Proof.
  intros H1 H2 Hd. rewrite py_setslice_inrange by assumption.
  unfold zlen in *.
  destruct (Z.of_nat k <? a) eqn:Ea.
  - rewrite nth_error_app1 by (rewrite firstn_length; lia).
    apply nth_error_firstn. lia.
  - rewrite nth_error_app2 by (rewrite firstn_length; lia).
    rewrite firstn_length, Nat.min_l by lia.
    destruct (Z.of_nat k <? b) eqn:Eb.
    + apply nth_error_app1. lia.
    + rewrite nth_error_app2 by lia.
      rewrite nth_error_skipn. f_equal. lia.
Qed.

End Pointwise.
