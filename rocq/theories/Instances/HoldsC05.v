(* Instance predicates of C05, built from Spec/PxcFormat.v only. The same definitions are proved of
   the model for every input (Proofs/CompressProofs.v, Properties/C05.v) and, extracted, evaluated
   on what the real implementation produced. *)
From PV Require Import Base.Prelude Spec.PxcFormat.

Definition last_byte (t : list Z) : option Z := match rev' t with [] => None | y :: _ => Some y end.
Definition ends_withb (suffix t : list Z) : bool := starts_with (rev' suffix) (rev' t).

(* texts the format can carry through a reader that strips NUL padding and the compatibility suffix *)
Definition nul_free_ends (t : list Z) : bool :=
  match t with [] => true | x :: _ => negb (x =? 0) end &&
  match last_byte t with None => true | Some y => negb (y =? 0) end.
Definition no_compat_suffix (t : list Z) : bool :=
  negb (ends_withb pxc_future1 t) && negb (ends_withb pxc_future2 t).
Definition carried (t : list Z) : bool := nul_free_ends t && no_compat_suffix t.

(* observation: stream = compress_code(text).  The stream is a sequence of bytes, well formed from
   start to end (including whatever follows the text), and its first len(text) bytes are the text. *)
Definition holds_C05_stream (text stream : list Z) : bool :=
  all_bytes stream && wf_streamb stream &&
  match pxc_decode (zlen text) stream with Some t => zlist_eqb t text | None => false end.

(* observation: area = get_bytes_from_code(text) (the call returned).  An independent reading of the
   area gives the text back; for plain storage only NUL-free text can be stored at all. *)
Definition holds_C05_area (text area : list Z) : bool :=
  (zlen area =? area_size) &&
  match decode_area area with
  | Compressed t => zlist_eqb t text
  | Plain t => existsb (Z.eqb 0) text || zlist_eqb t text
  | Malformed => false
  end.

(* observation: (code_length, code, _) = decompress_code(area) for the compressed area of `text` *)
Definition holds_C05_readback (text area : list Z) (raised : bool) (code_length : Z) (code : list Z) : bool :=
  match decode_area area with
  | Compressed _ => if carried text then negb raised && (code_length =? zlen text) && zlist_eqb code text else true
  | _ => true
  end.

(* observation: decompress_code(header(n) ++ s ++ padding) on an arbitrary stream s.  Whenever the
   format defines the first n bytes of s, picotool returns exactly those. *)
Definition holds_C05_agree (n : Z) (s : list Z) (raised : bool) (code_length : Z) (code : list Z) : bool :=
  match pxc_decode n s with
  | Some out => if carried out then negb raised && (code_length =? n) && zlist_eqb code out else true
  | None => true
  end.
