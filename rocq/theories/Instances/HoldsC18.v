(* Instance predicate of C18: one observation = (regions before, address, data,
   whether the call raised, regions after). The same definition is (a) proved of the
   model for every input and (b) extracted and evaluated on what the real
   implementation did. *)
From PV Require Import Base.Prelude Spec.FlatMem.

Fixpoint regions_eqb (a b : list (list Z)) : bool :=
  match a, b with
  | [], [] => true
  | x :: a', y :: b' => zlist_eqb x y && regions_eqb a' b'
  | _, _ => false
  end.

Definition holds_C18 (st : list (list Z)) (addr : Z) (data : list Z)
                     (raised : bool) (st' : list (list Z)) : bool :=
  if addr <? 0 then true                                  (* outside the address space: no claim *)
  else if addr + zlen data <=? data_end
  then negb raised && wf_regionsb st' && zlist_eqb (flat st') (flat_write (flat st) addr data)
  else raised && regions_eqb st' st.                      (* rejected, nothing modified *)
