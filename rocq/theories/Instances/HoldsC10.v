(* Instance predicate of C10 (luafmt output is canonical and idempotent).

   One observation = (indent width w, a layout in1 of a program, a second layout in2 of it,
   out1 = luafmt w in1, out2 = luafmt w in2, out1' = luafmt w out1).  Built from Spec/FmtShape.v and
   Base/ only; the same definition is evaluated, extracted, on what the real `luafmt` wrote.

   The observation is in the domain when both layouts are read by the reference reader and are the
   same program with the same line breaks, differing at most in white space at the edges of lines
   (outside multi-line tokens), and 0 <= w <= 8.  Then:
     reindent     out2 = out1          (the output does not depend on how the input was indented)
     idempotent   out1' = out1         (formatting formatted code changes nothing)
     shape        in out1 every line that begins with a code token is indented by exactly w x (blocks
                  and brackets open at that token, a closing token counted closed) spaces; no line ends in
                  white space; at most one blank line separates lines; no blank lines at the end. *)
From PV Require Import Base.Prelude Spec.FmtShape.

(* 0: all clauses hold.  > 0: bit mask of violated clauses (1 indentation, 2 trailing white space,
   4 blank-line run, 8 blank lines at the end, 16 depends on input indentation, 32 not idempotent).
   < 0: outside the domain, no claim (-1 a text is outside the reader's fragment, -2 the two
   layouts are not the same modulo line-edge white space, -3 width outside 0..8). *)
Definition C10_verdict (w : Z) (in1 in2 out1 out2 out1' : list Z) : Z :=
  if (w <? 0) || (8 <? w) then -3
  else match same_modulo_line_edges in1 in2 with
       | None => -1
       | Some false => -2
       | Some true =>
         match lex out1 with
         | None => -1
         | Some ts =>
           shape_code w ts
           + (if zlist_eqb out2 out1 then 0 else 16)
           + (if zlist_eqb out1' out1 then 0 else 32)
         end
       end.

Definition holds_C10 (w : Z) (in1 in2 out1 out2 out1' : list Z) : bool :=
  C10_verdict w in1 in2 out1 out2 out1' <=? 0.

(* the shape clauses alone, on one text *)
Definition C10_shape_verdict (w : Z) (out : list Z) : Z :=
  match lex out with
  | None => -1
  | Some ts => shape_code w ts
  end.

Definition holds_C10_shape (w : Z) (out : list Z) : bool := C10_shape_verdict w out <=? 0.

(* ---------- observation of the link the whole-program proof still lacks ----------
   The writer passes its nesting counter (_indent) with every white-space run; C10_indent_partial
   needs that counter to equal the number of blocks and brackets open at the token that follows
   the run.  [link_mismatches src obs]: obs = (byte offset of a code token in src, the _indent the
   real writer passed with the run before it); answer = the offsets at which the reference depth
   differs (or where the reference reader sees no code token).  Informative only: a token in the
   middle of a line is not constrained by the property text. *)
Fixpoint code_depths (st : dstate) (off : Z) (ts : list stok) : list (Z * Z) :=
  match ts with
  | [] => []
  | t :: r =>
    let off' := off + zlen (snd t) in
    if is_code t then (off, depth_at st t) :: code_depths (depth_after st t) off' r
    else code_depths st off' r
  end.

Fixpoint assoc_z (k : Z) (l : list (Z * Z)) : option Z :=
  match l with
  | [] => None
  | (a, b) :: r => if a =? k then Some b else assoc_z k r
  end.

Definition link_mismatches (src : list Z) (obs : list (Z * Z)) : option (list Z) :=
  match lex src with
  | None => None
  | Some ts =>
    let ds := code_depths (mk_dstate 0 0) 0 ts in
    Some (map fst (filter (fun '(off, ind) =>
                             match assoc_z off ds with
                             | Some d => negb (d =? ind)
                             | None => true
                             end) obs))
  end.
