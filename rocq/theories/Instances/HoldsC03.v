(* Instance predicate of C03: one observation of  cart -> to_file -> bytes -> from_file -> cart'
   -> to_file -> bytes'  on the real implementation, judged by Spec/P8FileSpec.v only. *)
From PV Require Import Base.Prelude Spec.P8Format Spec.P8FileSpec.

(* c: the cart written (code = what its Lua object echoes); raised: any step raised;
   c': the cart read back (code = what the re-read Lua object echoes); f1, f2: the two files *)
Definition holds_C03 (c : p8cart) (raised : bool) (c' : p8cart) (f1 f2 : list Z) : bool :=
  if wf_p8cart c && code_in_format (pc_code c)
  then negb raised && same_cart_p8 c c' && zlist_eqb f1 f2
  else true.
