(* Instance predicate of C03: one observation of  cart -> to_file -> bytes -> from_file -> cart'
   -> to_file -> bytes'  on the real implementation, judged by Spec/P8FileSpec.v only. *)
From PV Require Import Base.Prelude Spec.P8Format Spec.P8FileSpec.

(* c: the cart written (code = what its Lua object echoes); raised: any step raised;
   c': the cart read back (code = what the re-read Lua object echoes); f1, f2: the two files *)
Definition holds_C03 (c : p8cart) (raised : bool) (c' : p8cart) (f1 f2 : list Z) : bool :=
  if wf_p8cart c && code_in_format (pc_code c)
  then negb raised && same_cart_p8 c c' && zlist_eqb f1 f2
  else true.

(* One observation of READING a file whose data sections have fewer rows than the full count (or are missing):
   s: the cart cut to the rows the file spells out (code = the text of its __lua__ section); raised: from_file
   raised; c': the cart it returned.  The cart read must be the cart the file denotes: every region at full
   size, the rows present followed by the empty default (music minus the unrepresentable bit, a missing final
   newline of the code supplied). *)
Definition holds_C03_short (s : p8cart) (raised : bool) (c' : p8cart) : bool :=
  if short_p8cart s && code_in_format (pc_code s)
  then negb raised && wf_p8cart c' && same_cart_p8 (denoted_p8cart s) c'
  else true.
