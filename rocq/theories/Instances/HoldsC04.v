(* Instance predicates of C04, built from Spec/P8PngSpec.v + Spec/PxcFormat.v only. *)
From PV Require Import Base.Prelude Spec.PxcFormat Spec.P8PngSpec.

(* observation 1: the pixel rows of the written PNG (decoded by an independent PNG reader), next to the
   cart that was written and the pixel rows of the label source image.
   - the image has the cart shape and every value is a byte
   - its upper six bits are those of the label source
   - an independent reading of the low bits gives back every region, the version and the code text *)
Definition holds_C04_image (gfx map_ gff music sfx text : list Z) (version : Z)
                           (label out : list (list Z)) : bool :=
  shape_ok out && rows_eqb (label_of out) (label_of label) &&
  let f := fields_of_rom (rom_of_rows out) in
  zlist_eqb (f_gfx f) gfx && zlist_eqb (f_map f) map_ && zlist_eqb (f_gff f) gff &&
  zlist_eqb (f_music f) music && zlist_eqb (f_sfx f) sfx &&
  match f_version f with Some v => v =? version | None => false end &&
  match area_text (f_code_area f) with Some t => zlist_eqb t text | None => false end.

(* observation 2: the cart picotool read back from that file, next to the cart that was written.
   Regions and version identical; code identical up to the reader's normalisation: CR -> space, and
   possibly one final newline *)
Definition code_equiv (text code : list Z) : bool :=
  zlist_eqb code text || zlist_eqb code (text ++ [10]) ||
  zlist_eqb code (cr_to_space text) || zlist_eqb code (cr_to_space text ++ [10]).

Definition holds_C04_readback (gfx map_ gff music sfx text : list Z) (version : Z)
                              (gfx' map' gff' music' sfx' code' : list Z) (version' : Z) : bool :=
  zlist_eqb gfx' gfx && zlist_eqb map' map_ && zlist_eqb gff' gff && zlist_eqb music' music &&
  zlist_eqb sfx' sfx && (version' =? version) && code_equiv text code'.

(* observation 3: the writer raised instead of writing.  That is only acceptable when the code does not
   fit: plain storage needs len(text) <= 0x3d00 (and NUL-free text). A text that fits plainly must be written. *)
Definition holds_C04_refused (text : list Z) : bool :=
  (area_size <? zlen text) || existsb (Z.eqb 0) text.

(* observation 3': a refusal next to a WITNESS that the code fits compressed: a stream (here: what the library's own
   compressor returns for the text) that the reference decoder reads back to exactly the text, whose length plus the
   8 header bytes is within the code area, for a text whose length the two header bytes can hold.  The witness is
   checked here, by the format's reference decoder, not trusted: if it is valid the code fits the cartridge and the
   refusal is a violation; if it is not, this observation says nothing. *)
Definition fits_compressed_witness (text stream : list Z) : bool :=
  (zlen stream + 8 <=? area_size) && (zlen text <? 65536) &&
  match pxc_decode (zlen text) stream with Some t => zlist_eqb t text | None => false end.

Definition holds_C04_refused_witness (text stream : list Z) : bool :=
  negb (fits_compressed_witness text stream).

(* observation 4: the two pixel functions alone, on an image of any width: out = get_pngdata_from_picodata(picodata,
   label) and back = get_picodata_from_pngdata(out).  The low bits of out spell picodata, the upper six bits are the
   label's, and reading out gives picodata back (followed by whatever the remaining pixels held). *)
Definition holds_C04_pixels (picodata : list Z) (label out : list (list Z)) (back : list Z) : bool :=
  let rom := rom_of_rows out in
  zlist_eqb (firstn (length picodata) rom) picodata && rows_eqb (label_of out) (label_of label) &&
  zlist_eqb back rom && forallb all_bytes out.
