(* Instance predicates of C01 (luamin keeps the program) and C19 (luamin keeps the title and
   author comments) on one observation: the source text handed to luamin and the text it wrote.
   Both texts are tokenised by the reference grammar Spec/LuaLex.v; nothing here knows picotool's
   lexer or writer.  Depends on Base/, Spec/ and the finite-map code of Instances/HoldsC02.v
   (Base/ only). *)
From PV Require Import Base.Prelude Spec.LuaLex Instances.HoldsC02.

(* the reference token list of a text, without positions (C01 / C19 do not speak about positions) *)
Definition unpos (t : stok) : stok :=
  mk_stok (s_kind t) (s_raw t) (s_text t) (s_num t) (s_den t) (s_long t) 0 0.
Definition spec_toks (src : list Z) : option (list stok) :=
  match spec_lex src with Some ts => Some (map unpos ts) | None => None end.

Definition kind_eqb (a b : skind) : bool := skind_code a =? skind_code b.
Definition is_kind (k : skind) (t : stok) : bool := kind_eqb (s_kind t) k.

(* `?` (print shorthand) is lexed as a name but is not an identifier *)
Definition is_qmark (t : stok) : bool := zlist_eqb (s_raw t) [63].

(* identifiers subject to the renaming: names and the names of labels *)
Definition is_ident (t : stok) : bool :=
  match s_kind t with
  | SName => negb (is_qmark t)
  | SLabel => true
  | _ => false
  end.

(* the same token up to the renaming of identifiers: keywords and symbols by text, numbers by
   value, strings by the bytes they denote *)
Definition same_view (a b : stok) : bool :=
  kind_eqb (s_kind a) (s_kind b) &&
  match s_kind a with
  | SNumber => (s_num a * s_den b =? s_num b * s_den a)
  | SName => if is_qmark a then is_qmark b else negb (is_qmark b)
  | SLabel => true
  | _ => zlist_eqb (s_text a) (s_text b)
  end.

Fixpoint all2 {A} (f : A -> A -> bool) (l1 l2 : list A) : bool :=
  match l1, l2 with
  | [], [] => true
  | x :: r1, y :: r2 => f x y && all2 f r1 r2
  | _, _ => false
  end.

Definition ident_names (ts : list stok) : list (list Z) := map s_text (filter is_ident ts).

(* sizes of the non-empty groups of significant tokens between newline tokens: every line-scoped
   construct (short if, ?, end-of-line comment) ends where its group ends *)
Fixpoint line_groups_from (n : Z) (ts : list stok) : list Z :=
  match ts with
  | [] => if 0 <? n then [n] else []
  | t :: r =>
    match s_kind t with
    | SNewline => if 0 <? n then n :: line_groups_from 0 r else line_groups_from 0 r
    | SSpace | SComment => line_groups_from n r
    | _ => line_groups_from (n + 1) r
    end
  end.
Definition line_groups (ts : list stok) : list Z := line_groups_from 0 ts.

(* the token count of `stats`, as the PICO-8 manual states the rule *)
Definition spec_weight (t : stok) : Z :=
  match s_kind t with
  | SSpace | SNewline | SComment => 0
  | SSymbol => if mem_bytes (s_text t) free_symbols then 0 else 1
  | SKeyword => if mem_bytes (s_text t) free_keywords then 0 else 1
  | _ => 1
  end.
Definition spec_count (ts : list stok) : Z := fold_left (fun a t => a + spec_weight t) ts 0.

(* ---------- C01 *)
Definition views_ok (ss ss' : list stok) : bool := all2 same_view (sig_toks ss) (sig_toks ss').
Definition renaming_ok (ss ss' : list stok) : bool :=
  let a := ident_names (sig_toks ss) in
  let b := ident_names (sig_toks ss') in
  functional (combine a b) && functional (combine b a).
Definition groups_ok (ss ss' : list stok) : bool := zlist_eqb (line_groups ss) (line_groups ss').
Definition count_ok (ss ss' : list stok) : bool := spec_count ss =? spec_count ss'.

Definition related (ss ss' : list stok) : bool :=
  views_ok ss ss' && renaming_ok ss ss' && groups_ok ss ss' && count_ok ss ss'.

Definition holds_C01 (src out : list Z) : bool :=
  match spec_toks src with
  | None => true                           (* outside the defined dialect: no claim *)
  | Some ss =>
    match spec_toks out with
    | None => false                        (* the output is not a token sequence of the dialect *)
    | Some ss' => related ss ss'
    end
  end.

(* which clause fails (diagnosis only): 0 none, 1 output does not lex, 2 tokens differ (glued, lost,
   changed), 3 renaming not a consistent injection, 4 line groups, 5 token count *)
Definition diag_C01 (src out : list Z) : Z :=
  match spec_toks src with
  | None => 0
  | Some ss =>
    match spec_toks out with
    | None => 1
    | Some ss' =>
      if negb (views_ok ss ss') then 2
      else if negb (renaming_ok ss ss') then 3
      else if negb (groups_ok ss ss') then 4
      else if negb (count_ok ss ss') then 5
      else 0
    end
  end.

(* index of the first significant token whose view differs (diagnosis only) *)
Fixpoint first_view_diff (a b : list stok) (k : Z) : option (Z * option stok * option stok) :=
  match a, b with
  | [], [] => None
  | x :: a', y :: b' => if same_view x y then first_view_diff a' b' (k + 1) else Some (k, Some x, Some y)
  | x :: _, [] => Some (k, Some x, None)
  | [], y :: _ => Some (k, None, Some y)
  end.
Definition where_C01 (src out : list Z) : option (Z * option stok * option stok) :=
  match spec_toks src, spec_toks out with
  | Some ss, Some ss' => first_view_diff (sig_toks ss) (sig_toks ss') 0
  | _, _ => None
  end.

(* with the token counts `stats` (Lua.get_token_count) reported for the input and the output *)
Definition holds_C01_obs (src out : list Z) (count_in count_out : Z) : bool :=
  holds_C01 src out && (match spec_toks src with None => true | Some _ => count_in =? count_out end).

(* ---------- C19 *)
(* the comments that precede any code *)
Fixpoint leading_comments (ts : list stok) : list stok :=
  match ts with
  | [] => []
  | t :: r =>
    match s_kind t with
    | SComment => t :: leading_comments r
    | SSpace | SNewline => leading_comments r
    | _ => []
    end
  end.

(* the output begins with exactly these comments, verbatim, each followed by a line break:
   -> the tokens after that header *)
Fixpoint after_header (hc : list stok) (out : list stok) : option (list stok) :=
  match hc with
  | [] => Some out
  | c :: hc' =>
    match out with
    | o :: n :: out' =>
      if is_kind SComment o && zlist_eqb (s_raw o) (s_raw c) && is_kind SNewline n
      then after_header hc' out' else None
    | _ => None
    end
  end.

Definition no_comments (ts : list stok) : bool := forallb (fun t => negb (is_kind SComment t)) ts.

(* bytes.strip() *)
Definition is_py_ws (c : Z) : bool := ((9 <=? c) && (c <=? 13)) || (c =? 32).
Fixpoint lstrip_ws (s : list Z) : list Z :=
  match s with c :: r => if is_py_ws c then lstrip_ws r else s | [] => [] end.
Definition strip_ws (s : list Z) : list Z := rev' (lstrip_ws (rev' (lstrip_ws s))).

(* what `stats` shows: the text of the comment that is token 0 (title) / token 2 (byline), without
   its first two bytes, stripped *)
Definition comment_text (t : stok) : list Z := strip_ws (skipn 2 (s_raw t)).
Definition stats_title (ts : list stok) : option (list Z) :=
  match ts with
  | t :: _ => if is_kind SComment t then Some (comment_text t) else None
  | [] => None
  end.
Definition stats_byline (ts : list stok) : option (list Z) :=
  match ts with
  | _ :: _ :: t :: _ => if is_kind SComment t then Some (comment_text t) else None
  | _ => None
  end.

Definition opt_bytes_eqb (a b : option (list Z)) : bool :=
  match a, b with
  | Some x, Some y => zlist_eqb x y
  | None, None => true
  | _, _ => false
  end.

Definition header_of (ss : list stok) : list stok := firstn 2 (leading_comments ss).

Definition header_ok (ss ss' : list stok) : bool :=
  match after_header (header_of ss) ss' with
  | None => false
  | Some rest => no_comments rest
  end.

(* the title and byline of the output are those of the first two leading comments *)
Definition titles_ok (ss ss' : list stok) : bool :=
  match header_of ss with
  | [] => true
  | [c1] => opt_bytes_eqb (stats_title ss') (Some (comment_text c1))
  | c1 :: c2 :: _ =>
    opt_bytes_eqb (stats_title ss') (Some (comment_text c1)) &&
    opt_bytes_eqb (stats_byline ss') (Some (comment_text c2))
  end.

(* comments never turn into code and code never into a comment: as many significant tokens as before *)
Definition sig_count_ok (ss ss' : list stok) : bool :=
  (length (sig_toks ss) =? length (sig_toks ss'))%nat.

Definition holds_C19 (src out : list Z) : bool :=
  match spec_toks src with
  | None => true
  | Some ss =>
    match spec_toks out with
    | None => false
    | Some ss' => header_ok ss ss' && titles_ok ss ss' && sig_count_ok ss ss'
    end
  end.

(* 0 none, 1 output does not lex, 2 header not verbatim at the top / a later comment survives or
   appears, 3 title or byline, 4 number of code tokens *)
Definition diag_C19 (src out : list Z) : Z :=
  match spec_toks src with
  | None => 0
  | Some ss =>
    match spec_toks out with
    | None => 1
    | Some ss' =>
      if negb (header_ok ss ss') then 2
      else if negb (titles_ok ss ss') then 3
      else if negb (sig_count_ok ss ss') then 4
      else 0
    end
  end.

(* with the title / byline Lua.get_title() / get_byline() reported for the written text
   (None = the method returned None) *)
Definition holds_C19_obs (src out : list Z) (title byline : option (list Z)) : bool :=
  holds_C19 src out &&
  match spec_toks src with
  | None => true
  | Some ss =>
    match header_of ss with
    | [] => true
    | [c1] => opt_bytes_eqb title (Some (comment_text c1))
    | c1 :: c2 :: _ => opt_bytes_eqb title (Some (comment_text c1)) && opt_bytes_eqb byline (Some (comment_text c2))
    end
  end.
