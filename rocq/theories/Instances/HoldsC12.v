(* Instance predicates of C12 on one observed run.  Spec/ and Base/ only.
   An observation is the list of paths the implementation handed to open() (OpenRead) or to
   os.path.isfile()/os.path.exists() (Probe) while loading a cart or building, in order. *)
From PV Require Import Base.Prelude Spec.PathSpec Spec.LoadPathSpec.

Definition mentions (explicit : list bytes) (e : event) : bool :=
  existsb (zlist_eqb (snd e)) explicit.

(* accesses to the files named on the command line (the cart itself, OUT, the main .lua, picotool's
   own label image) are not subject to the property *)
Definition relevant (explicit : list bytes) (tr : list event) : list event :=
  filter (fun e => negb (mentions explicit e)) tr.

(* the pathname an #include string denotes: relative to the directory of the including cart *)
Definition include_target (cart inc : bytes) : bytes :=
  if absolute inc then inc else dir_part cart ++ inc.

(* loading [cart] (with working directory cwd, carts folders [carts]) whose only include string
   is [inc]: every access lies under the include root, and a string that denotes a place outside
   the root is rejected with an error *)
Definition holds_C12_include (cwd : bytes) (carts : list bytes) (cart inc : bytes)
           (raised : bool) (explicit : list bytes) (tr : list event) : bool :=
  let root := include_root cwd carts cart in
  all_opens_under cwd [root] (relevant explicit tr)
  && (underb cwd root (include_target cart inc) || raised).

(* split a load path at ';' (59) *)
Fixpoint load_path_patterns (s : bytes) : list bytes :=
  match s with
  | [] => [[]]
  | c :: r =>
    if c =? 59 then [] :: load_path_patterns r
    else match load_path_patterns r with
         | h :: t => (c :: h) :: t
         | [] => [[c]]
         end
  end.

(* building from [main] with load path [lua_path]: every access lies under the directory of a
   requiring file or under a directory designated by a pattern of the load path (Spec/LoadPathSpec.v:
   [pattern_root] = the directory part of the pattern in front of its first "?", minus [pattern_climb]
   levels; for patterns of climb 0 - every usual one - that is [pattern_dir], and the roots are
   PathSpec.require_roots) *)
Definition holds_C12_require (cwd lua_path main : bytes) (explicit : list bytes) (tr : list event) : bool :=
  let pats := load_path_patterns lua_path in
  all_opens_under_growing cwd (require_roots_general pats) (require_roots_general pats main) (relevant explicit tr).
