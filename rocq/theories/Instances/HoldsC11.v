(* Instance predicate of C11 on one observed run of a cart writer.  Spec/ and Base/ only.
   One observation = the recorded trace of file operations (data abstracted to lengths; EncoderDone
   marks the normal return of the formatter's to_file) and whether the bytes stored under the
   destination are the same after the run as before (both absent counts as the same). *)
From PV Require Import Base.Prelude Spec.FsSem.

(* the trace never touches the destination before the encoder has finished, and a run in which the
   encoder did not finish (producing the cart failed) left the destination's bytes as they were *)
Definition holds_C11 (dest : path) (tr : list (op Z)) (dest_same : bool) : bool :=
  safe dest tr && (encoder_done tr || dest_same).

(* the whole recorded trace of a command (possibly several cart writes): nothing is modified while a cart
   is being encoded *)
Definition holds_C11_quiet (tr : list (op Z)) : bool := quiet tr.
