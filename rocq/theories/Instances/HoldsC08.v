(* Instance predicate of C08.  One observation = (token list the lexer produced, the derivation tree of
   the program in the reference grammar - PNone when the input is not known to be a valid program -,
   the syntax tree the library exposes, its end position).  Built from Spec/ + Base/ only. *)
From PV Require Import Base.Prelude Spec.LuaTokens Spec.LuaGrammar.

(* is the reference tree really a derivation of this token list, laid out as the line-scoped forms need? *)
Definition ref_ok_C08 (ts : list token) (g : tree) : bool := derives ts g && line_scoped ts g.

(* conditions on every accepted parse *)
Definition holds_C08_any (ts : list token) (root : tree) (e : Z) : bool :=
  root_ok root e && (e <=? zlen ts) && ranges_ok e root && increasing (leaves root) && shortif_on_line ts root.

(* valid program with derivation g: consumed to the last token, and the exposed tree is the denoted one *)
Definition holds_C08 (ts : list token) (g root : tree) (e : Z) : bool :=
  holds_C08_any ts root e &&
  match g with
  | PNone => true
  | _ => consumed ts e && denotes g root
  end.
