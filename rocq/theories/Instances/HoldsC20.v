(* Instance predicate of C20 on one observed load.  Spec/ and Base/ only.
   Observation: the code text of the including cart as stored in it (host), the files its
   directory offers (NAME, kind, bytes of the text file / code text of the cart), and what the
   implementation produced: the code text of the loaded cart, or an error. *)
From PV Require Import Base.Prelude Spec.SpliceSpec.

Fixpoint lookup_content (files : list (bytes * Z * bytes)) (name : bytes) (kind : Z) : option bytes :=
  match files with
  | [] => None
  | (n, k, b) :: r => if zlist_eqb n name && (k =? kind) then Some b else lookup_content r name kind
  end.

Fixpoint lines_eqb (a b : list bytes) : bool :=
  match a, b with
  | [], [] => true
  | x :: a', y :: b' => zlist_eqb x y && lines_eqb a' b'
  | _, _ => false
  end.

(* 0 = no claim (undefined by the description), 1 = holds, 2 = violated *)
Definition judge_C20 (host : bytes) (files : list (bytes * Z * bytes)) (impl : option bytes) : Z :=
  match ref_splice (lookup_content files) (text_lines host) with
  | SpUndefined => 0
  | SpMissing => match impl with None => 1 | Some _ => 2 end
  | SpOk ls => match impl with Some t => if lines_eqb (text_lines t) ls then 1 else 2 | None => 2 end
  end.

Definition holds_C20 (host : bytes) (files : list (bytes * Z * bytes)) (impl : option bytes) : bool :=
  negb (judge_C20 host files impl =? 2).
