(* Instance predicate of C02 on one observation of the real renaming (MinifyNameFactory or a
   whole luamin run).  Depends on Base/ only: the reserved names are part of the observation
   (the harness passes the implementation's runtime LUA_KEYWORDS | PICO8_BUILTINS), so are the
   keep-file names as the implementation read them.
   Observation: keep_all flag, keep-file names, reserved names, the identifiers requested in
   order (names) and what each was written as (outs).
   C02_spec is the property on that observation as a Prop; holds_C02 is the executable form
   (finite maps as byte tries, linear in the total size), holds_C02_iff in
   Proofs/NameFactoryProofs.v relates the two. *)
From PV Require Import Base.Prelude.

(* ---------- finite maps keyed by byte strings ---------- *)
Inductive trie : Type := Node (v : option (list Z)) (kids : list (Z * trie)).

Definition tval (t : trie) : option (list Z) := match t with Node v _ => v end.
Definition tkids (t : trie) : list (Z * trie) := match t with Node _ k => k end.
Definition tempty : trie := Node None [].

Fixpoint find_kid (c : Z) (kids : list (Z * trie)) : option trie :=
  match kids with
  | [] => None
  | (c', t) :: r => if c' =? c then Some t else find_kid c r
  end.

Fixpoint set_kid (c : Z) (t' : trie) (kids : list (Z * trie)) : list (Z * trie) :=
  match kids with
  | [] => [(c, t')]
  | (c', t) :: r => if c' =? c then (c, t') :: r else (c', t) :: set_kid c t' r
  end.

Fixpoint tlookup (k : list Z) (t : trie) : option (list Z) :=
  match k with
  | [] => tval t
  | c :: k' => match find_kid c (tkids t) with Some t' => tlookup k' t' | None => None end
  end.

Fixpoint tinsert (k v : list Z) (t : trie) : trie :=
  match k with
  | [] => Node (Some v) (tkids t)
  | c :: k' =>
    let sub := match find_kid c (tkids t) with Some t' => t' | None => tempty end in
    Node (tval t) (set_kid c (tinsert k' v sub) (tkids t))
  end.

Definition tset (l : list (list Z)) : trie := fold_left (fun t n => tinsert n [] t) l tempty.
Definition tmem (n : list Z) (t : trie) : bool :=
  match tlookup n t with Some _ => true | None => false end.

(* is the list of pairs the graph of a function?  (m: pairs seen so far) *)
Fixpoint functional_from (m : trie) (pairs : list (list Z * list Z)) : bool :=
  match pairs with
  | [] => true
  | (a, b) :: r =>
    match tlookup a m with
    | Some b' => zlist_eqb b b' && functional_from m r
    | None => functional_from (tinsert a b m) r
    end
  end.
Definition functional (pairs : list (list Z * list Z)) : bool := functional_from tempty pairs.

(* ---------- Lua names: [A-Za-z_\x80-\xff][A-Za-z0-9_\x80-\xff]* ---------- *)
Definition name_start (c : Z) : bool :=
  ((65 <=? c) && (c <=? 90)) || ((97 <=? c) && (c <=? 122)) || (c =? 95) || ((128 <=? c) && (c <=? 255)).
Definition name_char (c : Z) : bool := name_start c || ((48 <=? c) && (c <=? 57)).
Definition is_name (s : list Z) : bool :=
  match s with [] => false | c :: r => name_start c && forallb name_char r end.

Fixpoint same_length {A C} (a : list A) (b : list C) : bool :=
  match a, b with
  | [], [] => true
  | _ :: a', _ :: b' => same_length a' b'
  | _, _ => false
  end.

Section Observation.
Variable keep_all : bool.
Variables keep reserved names outs : list (list Z).

(* ---------- the property on one observation ---------- *)
Definition obs_kept (n : list Z) : Prop := keep_all = true \/ In n reserved \/ In n keep.
Definition written (n o : list Z) : Prop := In (n, o) (combine names outs).

Definition spec_length : Prop := length outs = length names.
Definition spec_consistent : Prop := forall n o1 o2, written n o1 -> written n o2 -> o1 = o2.
Definition spec_injective : Prop := forall n1 n2 o, written n1 o -> written n2 o -> n1 = n2.
Definition spec_kept : Prop := forall n o, written n o -> obs_kept n -> o = n.
Definition spec_fresh : Prop := forall n o, written n o -> ~ obs_kept n ->
  ~ In o reserved /\ ~ In o keep /\ is_name o = true.
Definition C02_spec : Prop :=
  spec_length /\ spec_consistent /\ spec_injective /\ spec_kept /\ spec_fresh.

(* ---------- executable form ---------- *)
Definition kept_in (rs ks : trie) (n : list Z) : bool := keep_all || tmem n rs || tmem n ks.

Definition holds_length : bool := same_length names outs.
Definition holds_consistent : bool := functional (combine names outs).
Definition holds_injective : bool := functional (combine outs names).
Definition holds_kept : bool :=
  let rs := tset reserved in let ks := tset keep in
  forallb (fun p => negb (kept_in rs ks (fst p)) || zlist_eqb (snd p) (fst p)) (combine names outs).
Definition holds_fresh : bool :=
  let rs := tset reserved in let ks := tset keep in
  forallb (fun p => kept_in rs ks (fst p)
                    || (negb (tmem (snd p) rs) && negb (tmem (snd p) ks) && is_name (snd p)))
          (combine names outs).

Definition holds_C02 : bool :=
  holds_length && holds_consistent && holds_injective && holds_kept && holds_fresh.
End Observation.
