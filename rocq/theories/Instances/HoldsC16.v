(* Instance predicates of C16: the text a writer produced / the bytes a reader produced,
   against the reference formats of Spec/P8Format.v only. *)
From PV Require Import Base.Prelude Spec.P8Format.

Fixpoint lines_eqb (a b : list (list Z)) : bool :=
  match a, b with
  | [], [] => true
  | x :: a', y :: b' => zlist_eqb x y && lines_eqb a' b'
  | _, _ => false
  end.

(* sec: 0 gfx/label, 1 map, 2 gff, 3 music, 4 sfx *)
Definition spec_lines (sec : Z) (d : list Z) : list (list Z) :=
  if sec =? 0 then spec_gfx_lines d
  else if sec =? 1 then spec_hex_lines d
  else if sec =? 2 then spec_hex_lines d
  else if sec =? 3 then spec_music_lines d
  else spec_sfx_lines d.

Definition sec_size (sec : Z) : Z :=
  if sec =? 0 then 8192 else if sec =? 1 then 4096 else if sec =? 2 then 256
  else if sec =? 3 then 256 else 4352.

(* writer: region bytes -> text lines *)
Definition holds_C16_write (sec : Z) (d : list Z) (raised : bool) (lines : list (list Z)) : bool :=
  if (zlen d =? sec_size sec) && all_bytes d
  then negb raised && lines_eqb lines (spec_lines sec d)
  else true.

(* reader: the reference text of d -> bytes; music loses exactly the unrepresentable bit *)
Definition holds_C16_read (sec : Z) (d : list Z) (raised : bool) (back : list Z) : bool :=
  if (zlen d =? sec_size sec) && all_bytes d
  then negb raised && zlist_eqb back (if sec =? 3 then music_norm d else d)
  else true.

(* the empty default of a region (Spec/P8Format.v, "short sections") *)
Definition spec_default (sec : Z) : list Z :=
  if sec =? 3 then spec_default_music
  else if sec =? 4 then spec_default_sfx
  else repeat 0 (Z.to_nat (sec_size sec)).

(* a file written by PICO-8: the reader's bytes must be the ones whose reference text is the
   file's text (the reference encodings are injective) - where the file has fewer rows than the
   full count (newer PICO-8 versions leave out the empty tail; possibly the whole section) the
   rows left out are the rows of the empty default, and the region has its full size all the same *)
Definition holds_C16_file (sec : Z) (file_lines : list (list Z)) (d : list Z) : bool :=
  (zlen d =? sec_size sec) &&
  lines_eqb (spec_lines sec d)
            (file_lines ++ skipn (length file_lines) (spec_lines sec (spec_default sec))).

(* .p8.png pixel: the byte read from a pixel / the pixel written for a byte *)
Definition holds_C16_unpack (r g b a : Z) (byte_ : Z) : bool := byte_ =? spec_pixel_byte r g b a.
Definition holds_C16_pack (r g b a byte_ : Z) (r' g' b' a' : Z) : bool :=
  let '(er, eg, eb, ea) := spec_pixel_hide r g b a byte_ in
  (r' =? er) && (g' =? eg) && (b' =? eb) && (a' =? ea).
