(* Instance predicate of C17: one accessor call on the real objects, against Spec/PlainMem. *)
From PV Require Import Base.Prelude Spec.PlainMem.

Fixpoint rows_eqb (a b : list (list Z)) : bool :=
  match a, b with
  | [], [] => true
  | x :: a', y :: b' => zlist_eqb x y && rows_eqb a' b'
  | _, _ => false
  end.
Definition ozeqb (a b : option Z) : bool :=
  match a, b with Some x, Some y => x =? y | None, None => true | _, _ => false end.
Definition val_eqb (a b : val) : bool :=
  match a, b with
  | VNone, VNone => true
  | VInt x, VInt y => x =? y
  | VOptInt x, VOptInt y => ozeqb x y
  | VRows x, VRows y => rows_eqb x y
  | VTuple x, VTuple y => zlist_eqb x y
  | VBools a1 a2 a3, VBools b1 b2 b3 => Bool.eqb a1 b1 && Bool.eqb a2 b2 && Bool.eqb a3 b3
  | _, _ => false
  end.
Definition mem_eqb (a b : mem) : bool :=
  zlist_eqb (m_gfx a) (m_gfx b) && zlist_eqb (m_map a) (m_map b) && zlist_eqb (m_gff a) (m_gff b) &&
  zlist_eqb (m_music a) (m_music b) && zlist_eqb (m_sfx a) (m_sfx b).

(* before, op, whether the call raised, returned value, after *)
Definition holds_C17 (s : mem) (o : op) (raised : bool) (v : val) (s' : mem) : bool :=
  if wf_memb s && in_contract o
  then negb raised && (let '(es, ev) := spec_step s o in mem_eqb s' es && val_eqb v ev)
  else true.

(* a whole history: every call must return what the plain model predicts and the final
   memory must be the plain model's; the claim stops at the first out-of-contract call *)
Fixpoint holds_C17_hist (s : mem) (ops : list op) (outs : list (bool * val)) (final : mem) : bool :=
  match ops, outs with
  | [], [] => mem_eqb final s
  | o :: ops', (raised, v) :: outs' =>
    if in_contract o
    then negb raised && (let '(es, ev) := spec_step s o in val_eqb v ev && holds_C17_hist es ops' outs' final)
    else true
  | _, _ => false
  end.
Definition holds_C17_seq (s : mem) (ops : list op) (outs : list (bool * val)) (final : mem) : bool :=
  if wf_memb s then holds_C17_hist s ops outs final else true.
