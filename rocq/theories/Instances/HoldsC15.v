(* Instance predicates of C15 on one observation of the real converters. Depends on
   Base/ only (UTF-8 reference codec), not on the regenerated tables. *)
From PV Require Import Base.Prelude Base.Utf8.

Definition opt_zlist_eqb (a : option (list Z)) (b : list Z) : bool :=
  match a with Some l => zlist_eqb l b | None => false end.

(* bs: input bytes; text: code points of p8scii_to_unicode(bs); enc: bytes(text,'utf-8');
   raised/back: outcome of unicode_to_p8scii(text) *)
Definition holds_C15 (bs text enc : list Z) (raised : bool) (back : list Z) : bool :=
  negb raised && zlist_eqb back bs
  && forallb valid_scalarb text
  && zlist_eqb enc (utf8_encode text)
  && opt_zlist_eqb (utf8_decode enc) text.

(* distinct, prefix-free spellings: [sp] is the list of the 256 observed spellings *)
Definition holds_C15_prefix_free (sp : list (list Z)) : bool :=
  (zlen sp =? 256) &&
  forallb (fun i => forallb (fun j =>
     (i =? j) || negb (starts_with (nth (Z.to_nat i) sp []) (nth (Z.to_nat j) sp [])))
     (upto 256)) (upto 256) &&
  forallb (fun s => negb (zlist_eqb s [])) sp.
