(* Instance predicate of C06 on one observation (source, echoed text) of the real code, against the
   reference grammar Spec/LuaLex.v.  Depends on Base/ and Spec/ only.

   The echoed text is walked along the reference tokens of the SOURCE: outside quoted strings it must
   repeat the source byte for byte; at a quoted string it must show the same quote and a spelling that the
   reference decoder reads back as exactly the bytes the source spelling denotes. *)
From PV Require Import Base.Prelude Spec.LuaLex.

Definition is_quoted (s : stok) : bool :=
  match s_kind s with SString => s_long s <? 0 | _ => false end.

(* None = the echo is faithful; Some (index, reason):
   1 text outside a quoted string differs (or is cut short), 2 the quote character differs,
   3 the output spelling of a string is not a string literal, 4 it denotes different bytes,
   5 output continues after the last token *)
Fixpoint walk (ss : list stok) (out : list Z) (k : Z) : option (Z * Z) :=
  match ss with
  | [] => match out with [] => None | _ => Some (k, 5) end
  | s :: ss' =>
    if is_quoted s then
      match out with
      | q :: o1 =>
        if zlist_eqb [q] (firstn 1 (s_raw s)) then
          match unescape_until q o1 with
          | Some (v, _, o2) => if zlist_eqb v (s_text s) then walk ss' o2 (k + 1) else Some (k, 4)
          | None => Some (k, 3)
          end
        else Some (k, 2)
      | [] => Some (k, 1)
      end
    else
      match strip_prefix (s_raw s) out with
      | Some o => walk ss' o (k + 1)
      | None => Some (k, 1)
      end
  end.

Definition diff_C06 (src out : list Z) : option (Z * Z) :=
  match spec_lex src with
  | None => None                         (* outside the defined dialect: no claim *)
  | Some ss => walk ss out 0
  end.

Definition holds_C06 (src out : list Z) : bool :=
  match diff_C06 src out with None => true | Some _ => false end.

(* the implementation raised on [src]: only acceptable outside the dialect *)
Definition holds_C06_error (src : list Z) : bool :=
  match spec_lex src with None => true | Some _ => false end.

(* stronger, checked on the implementation only: the echoed text is itself in the dialect and its reference
   tokens have the same class, the same text outside quoted strings and the same denoted bytes *)
Definition same_view (a b : stok) : bool :=
  (skind_code (s_kind a) =? skind_code (s_kind b)) &&
  (if is_quoted a then is_quoted b && zlist_eqb (s_text a) (s_text b) && zlist_eqb (firstn 1 (s_raw a)) (firstn 1 (s_raw b))
   else zlist_eqb (s_raw a) (s_raw b)).

Fixpoint all2 {A} (f : A -> A -> bool) (a b : list A) : bool :=
  match a, b with
  | [], [] => true
  | x :: a', y :: b' => f x y && all2 f a' b'
  | _, _ => false
  end.

Definition holds_C06_relex (src out : list Z) : bool :=
  match spec_lex src with
  | None => true
  | Some ss => match spec_lex out with Some ss' => all2 same_view ss ss' | None => false end
  end.
