(* Instance predicate of C13 on one observed run of `p8tool build`.  Spec/ and Base/ only.
   One observation = the command line (build_args), the files as the command found them (world:
   which names exist, the cart in each, the empty defaults, label pictures), and what happened
   (failed?, OUT untouched?, OUT read back afterwards).  Contents are compared with [eqb]; the
   harness instantiates A with interned content identifiers (equal id <-> equal bytes). *)
From PV Require Import Base.Prelude Spec.BuildSpec.

Definition holds_C13 {A} (eqb : A -> A -> bool) (w : world A) (args : build_args) (o : observation A) : bool :=
  obeys eqb (build_spec w args) o.

(* the statement as a Prop *)
Definition C13_statement {A} (w : world A) (args : build_args) (o : observation A) : Prop :=
  match build_spec w args with
  | None => o_failed o = true /\ o_untouched o = true
  | Some (x, req) =>
    o_failed o = false /\
    exists y l, o_after o = Some (y, l) /\
                (forall s, sec_get s y = sec_get s x) /\
                match req with KeepLabel k => l = k | AnyLabel => True end
  end.

Lemma holds_C13_sound {A} (eqb : A -> A -> bool) :
  (forall a b, eqb a b = true -> a = b) ->
  forall w args o, holds_C13 eqb w args o = true -> C13_statement w args o.
Proof.
  intros Heq w args o. unfold holds_C13, C13_statement, obeys.
  destruct (build_spec w args) as [[x req]|].
  - rewrite andb_true_iff, negb_true_iff. intros [Hf H]. split; [exact Hf|].
    destruct (o_after o) as [[y l]|]; [|discriminate H].
    apply andb_true_iff in H. destruct H as [Hs Hl].
    exists y, l. split; [reflexivity|]. split.
    + unfold secs_eqb in Hs. rewrite forallb_forall in Hs. intros s. symmetry. apply Heq, Hs.
      destruct s; cbn; tauto.
    + destruct req as [k|]; [|exact I]. cbn in Hl.
      destruct k as [k|], l as [l|]; cbn in Hl; try discriminate Hl; try reflexivity.
      f_equal. symmetry. apply Heq, Hl.
  - rewrite andb_true_iff. tauto.
Qed.
