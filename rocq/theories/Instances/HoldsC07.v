(* Instance predicate of C07 on one observation of the real lexer: the token list picotool
   reports for [src] against the reference grammar Spec/LuaLex.v.  Depends on Base/ and Spec/ only. *)
From PV Require Import Base.Prelude Spec.LuaLex.

(* one token as observed on the implementation (Lua.tokens) *)
Record itok : Set := mk_itok {
  i_kind : Z;                  (* class, numbered as skind_code *)
  i_data : list Z;             (* ._data *)
  i_line : Z;                  (* ._lineno *)
  i_col : Z;                   (* ._charno *)
  i_quote : list Z;            (* TokString._quote or [] *)
  i_ml : option (list Z);      (* TokString._multiline_quote *)
  i_val : option (Z * Z);      (* TokNumber.value as an exact fraction; None: raised, or not a number *)
  i_sval : list Z              (* TokString.value (the denoted bytes); [] for other classes *)
}.

Definition opt_list_eqb (a b : option (list Z)) : bool :=
  match a, b with
  | Some x, Some y => zlist_eqb x y
  | None, None => true
  | _, _ => false
  end.

(* 0 = agrees; otherwise the first field that differs:
   1 kind, 4 denoted string bytes, 5 quote / bracket level, 6 extent (text), 7 numeric value, 2 line, 3 column *)
Definition tok_diff (s : stok) (i : itok) : Z :=
  if negb (skind_code (s_kind s) =? i_kind i) then 1
  else
    let d :=
      match s_kind s with
      | SString =>
        if negb (zlist_eqb (s_text s) (i_sval i)) then 4
        else if s_long s <? 0 then
          (if zlist_eqb (i_quote i) (firstn 1 (s_raw s)) && opt_list_eqb (i_ml i) None then 0 else 5)
        else
          let eqs := repeat 61 (Z.to_nat (s_long s)) in
          if negb (opt_list_eqb (i_ml i) (Some eqs)) then 5
          else if zlist_eqb (s_raw s) (91 :: eqs ++ 91 :: i_data i ++ 93 :: eqs ++ [93]) then 0 else 6
      | SNumber =>
        if negb (zlist_eqb (s_raw s) (i_data i)) then 6
        else match i_val i with
             | Some (n, d) =>
               (* a double: equal to the reference value up to one rounding (relative error <= 2^-53) *)
               if (0 <? d) && (Z.abs (n * s_den s - s_num s * d) * 2 ^ 53 <=? Z.abs (s_num s * d)) then 0 else 7
             | None => 7
             end
      | _ => if zlist_eqb (s_raw s) (i_data i) then 0 else 6
      end in
    if negb (d =? 0) then d
    else if negb (s_line s =? i_line i) then 2
    else if negb (s_col s =? i_col i) then 3
    else 0.

(* first disagreement: (index, field, reference token if any); field 8 = the lists differ in length *)
Fixpoint first_diff (ss : list stok) (is_ : list itok) (k : Z) : option (Z * Z * option stok) :=
  match ss, is_ with
  | [], [] => None
  | s :: ss', i :: is' =>
    let d := tok_diff s i in
    if d =? 0 then first_diff ss' is' (k + 1) else Some (k, d, Some s)
  | s :: _, [] => Some (k, 8, Some s)
  | [], _ :: _ => Some (k, 8, None)
  end.

(* the implementation produced [toks] for [src] *)
Definition diff_C07 (src : list Z) (toks : list itok) : option (Z * Z * option stok) :=
  match spec_lex src with
  | None => None                         (* outside the defined dialect: no claim *)
  | Some ss => first_diff ss toks 0
  end.

Definition holds_C07 (src : list Z) (toks : list itok) : bool :=
  match diff_C07 src toks with None => true | Some _ => false end.

(* the implementation raised an error on [src]: only acceptable outside the dialect *)
Definition holds_C07_error (src : list Z) : bool :=
  match spec_lex src with None => true | Some _ => false end.

(* chunking independence: the two observed token lists are the same, field by field *)
Definition itok_eqb (a b : itok) : bool :=
  (i_kind a =? i_kind b) && zlist_eqb (i_data a) (i_data b) && (i_line a =? i_line b) && (i_col a =? i_col b)
  && zlist_eqb (i_quote a) (i_quote b) && opt_list_eqb (i_ml a) (i_ml b) && zlist_eqb (i_sval a) (i_sval b)
  && match i_val a, i_val b with
     | Some (n, d), Some (n', d') => (n * d' =? n' * d)
     | None, None => true
     | _, _ => false
     end.

Fixpoint holds_C07_chunking (a b : list itok) : bool :=
  match a, b with
  | [], [] => true
  | x :: a', y :: b' => itok_eqb x y && holds_C07_chunking a' b'
  | _, _ => false
  end.

(* stats token count, recomputed from the reference tokens *)
Definition spec_token_weight (t : stok) : Z :=
  match s_kind t with
  | SSpace | SNewline | SComment => 0
  | SSymbol => if mem_bytes (s_raw t) free_symbols then 0 else 1
  | SKeyword => if mem_bytes (s_raw t) free_keywords then 0 else 1
  | _ => 1
  end.
Definition spec_token_count (ts : list stok) : Z := fold_left (fun a t => a + spec_token_weight t) ts 0.

(* the rule Lua.get_token_count implements, stated on reference tokens: as above, and a number whose text
   contains the byte 'e' counts 2 (picotool's reading of PICO-8 0.1.x; note that this includes 0x1e) *)
Definition spec_token_weight_e (t : stok) : Z :=
  match s_kind t with
  | SNumber => if existsb (Z.eqb 101) (s_raw t) then 2 else 1
  | _ => spec_token_weight t
  end.
Definition spec_token_count_e (ts : list stok) : Z := fold_left (fun a t => a + spec_token_weight_e t) ts 0.
