(* Instance predicate of C14 on one observed run of `p8tool build OUT.p8 --lua main.lua
   [--lua-path ...]`: the source files, and either the fact that the build failed or the code of
   the cart it wrote.  Depends on Base/ and Spec/ only. *)
From PV Require Import Base.Prelude Spec.LuaLex Spec.PathSpec Spec.RequireSpec.

(* lex every file; None if the reference tokenizer does not accept one of them *)
Fixpoint lex_files (cwd : list Z) (files : list (list Z * list Z)) : option (list file) :=
  match files with
  | [] => Some []
  | (path, src) :: r =>
    match sig_of src, lex_files cwd r with
    | Some ts, Some fs => Some (mkFile (locate cwd path) ts :: fs)
    | _, _ => None
    end
  end.

(* the load path in force (README): the --lua-path argument, else the PICO8_LUA_PATH environment
   variable, else "?;?.lua" *)
Definition spec_default_path : list Z := bs_ "?;?.lua".
Definition load_path (arg env : option (list Z)) : list Z :=
  match arg with
  | Some p => p
  | None => match env with Some p => p | None => spec_default_path end
  end.

(* verdict on one run:
   0  the run is as the description demands
   1  the build had to fail (a file cannot be found / invalid arguments) but wrote a cart
   2  the build had to succeed but failed
   3  the cart's code is not accepted by the reference tokenizer
   4..8  the cart's code is not the described one (see check_output)
   100  no claim (outcome not determined by the description, see Spec/RequireSpec.v) *)
Definition verdict_C14 (cwd lua_path main_path main_src : list Z) (files : list (list Z * list Z))
           (raised : bool) (out : list Z) : Z :=
  match sig_of main_src, lex_files cwd files with
  | Some mt, Some fs =>
    match expect cwd fs (split_at 59 lua_path) main_path mt with
    | Undefined => 100
    | MustFail => if raised then 0 else 1
    | Packages ps =>
      if raised then 2
      else match sig_of out with
           | None => 3
           | Some o => check_output mt ps o
           end
    end
  | _, _ => 100
  end.

Definition holds_C14 (cwd lua_path main_path main_src : list Z) (files : list (list Z * list Z))
           (raised : bool) (out : list Z) : bool :=
  let v := verdict_C14 cwd lua_path main_path main_src files raised out in
  (v =? 0) || (v =? 100).

(* the predicate is not vacuous: it accepts the described cart of a two-package cycle, and rejects
   the same cart with a package defined twice, with a game loop function left in, with the main
   program changed, and a build that fails *)
Definition ex_main : list Z := bs_ "x=require(""a"")" ++ [10].
Definition ex_a : list Z := bs_ "function _init() end" ++ 10 :: bs_ "b=require(""b"")" ++ 10 :: bs_ "return 1".
Definition ex_b : list Z := bs_ "a=require(""a"")" ++ [10].
Definition ex_files : list (list Z * list Z) :=
  [(bs_ "/sb/main.lua", ex_main); (bs_ "/sb/a.lua", ex_a); (bs_ "/sb/b.lua", ex_b)].
Definition ex_block_a (body : list Z) : list Z :=
  bs_ "package._c[""a""]=function()" ++ 10 :: body ++ bs_ "end" ++ [10].
Definition ex_block_b : list Z :=
  bs_ "package._c[""b""]=function()" ++ 10 :: ex_b ++ bs_ "end" ++ [10].
Definition ex_body_a : list Z := bs_ "b=require(""b"")" ++ 10 :: bs_ "return 1" ++ [10].
Definition ex_verdict (raised : bool) (out : list Z) : Z :=
  verdict_C14 (bs_ "/sb") (bs_ "?;?.lua") (bs_ "main.lua") ex_main ex_files raised out.

Example holds_C14_accepts :
  ex_verdict false (spec_header_src ++ ex_block_a ex_body_a ++ ex_block_b ++ spec_loader_src ++ ex_main) = 0.
Proof. vm_compute. reflexivity. Qed.
Example holds_C14_rejects_twice :
  ex_verdict false (spec_header_src ++ ex_block_a ex_body_a ++ ex_block_b ++ ex_block_a ex_body_a
                    ++ spec_loader_src ++ ex_main) = 5.
Proof. vm_compute. reflexivity. Qed.
Example holds_C14_rejects_unstripped :
  ex_verdict false (spec_header_src ++ ex_block_a (ex_a ++ [10]) ++ ex_block_b ++ spec_loader_src ++ ex_main) = 5.
Proof. vm_compute. reflexivity. Qed.
Example holds_C14_rejects_missing_package :
  ex_verdict false (spec_header_src ++ ex_block_a ex_body_a ++ spec_loader_src ++ ex_main) = 6.
Proof. vm_compute. reflexivity. Qed.
Example holds_C14_rejects_changed_main :
  ex_verdict false (spec_header_src ++ ex_block_a ex_body_a ++ ex_block_b ++ spec_loader_src
                    ++ bs_ "x=require(""a"") x=nil" ++ [10]) = 8.
Proof. vm_compute. reflexivity. Qed.
Example holds_C14_rejects_failure : ex_verdict true [] = 2.
Proof. vm_compute. reflexivity. Qed.
Example holds_C14_demands_failure :
  verdict_C14 (bs_ "/sb") (bs_ "?;?.lua") (bs_ "main.lua") ex_main [(bs_ "/sb/main.lua", ex_main)] false ex_main = 1.
Proof. vm_compute. reflexivity. Qed.
