(* Instance predicate of C09.  One observation = (tokens of the input; the syntax tree and end position the
   parser produced for it; whether the input is known to be a valid program of the dialect; the tokens of the
   text luafmt wrote, or None if it raised).  Built from Spec/ + Base/ only. *)
From PV Require Import Base.Prelude Spec.LuaTokens Spec.LuaGrammar Spec.SameCode.

Definition holds_C09 (ts : list token) (root : tree) (e : Z) (valid : bool) (res : option (list token)) : bool :=
  match res with
  | Some out =>
      (* something was written: then the parse had reached the end of the code, exactly the input's tokens
         and comments are there, and the line-scoped constructs keep their extent *)
      consumed ts e && same_code ts out && lines_kept ts root out
  | None =>
      (* an error: never acceptable for a valid program *)
      negb valid
  end.
