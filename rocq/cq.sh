#!/bin/bash
# developer helper: compile one file quickly:  rocq/cq.sh theories/Proofs/X.v
cd "$(dirname "$(readlink -f "$0")")"
timeout ${T:-300} coqc -Q theories PV -w -notation-overridden,-deprecated-hint-without-locality,-deprecated-instance-without-locality "$1" 2>&1 | grep -v conda | head -${N:-40}
